/*
 * crashtrace — crash-point and torn-write enumerator (engine E3 of /verif/DESIGN.md §2.3).
 *
 *   crashtrace -w <watchdir> -o <logfile> log            -- cmd args...
 *   crashtrace -w <watchdir> -o <logfile> kill <k>       -- cmd args...
 *   crashtrace -w <watchdir> -o <logfile> tear <k> <n>   -- cmd args...
 *   (-S before -w: no seccomp filter; stop at every system call instead of only at the watched ones)
 *
 * Every thread and child process of cmd is traced with ptrace.  The tracer keeps ONE global, ordered list
 * of file-system-mutating system-call ENTRIES whose path (or file descriptor, resolved through
 * /proc/<tid>/fd) lies inside <watchdir>.  Entries are serialised: while one watched call is in flight
 * (entered, not yet returned) any other thread arriving at a watched call is held at its entry, so the
 * state at entry k is exactly "effects of entries 1..k-1".
 *
 *   log      run to completion, write the list                       exit = exit status of cmd
 *   kill k   SIGKILL the whole process at the ENTRY of entry k (the call itself is cancelled) exit 0
 *   tear k n entry k must be write/pwrite64: its byte count is replaced by n (n <= count), the call
 *            completes, and the process is SIGKILLed at the call's EXIT                          exit 0
 *
 * exit 3: tear target is not a write / n too large;  exit 4: cmd ended before entry k;  exit 2: tracer error.
 *
 * Log line:  <idx>\t<syscall>\t<path>[\t-> <path2>]\t[flags=0x..]\t[n=<count>]   and a last line "# end ...".
 * x86_64 Linux only.
 */
#define _GNU_SOURCE
#include <errno.h>
#include <fcntl.h>
#include <limits.h>
#include <signal.h>
#include <stdint.h>
#include <stdio.h>
#include <stdlib.h>
#include <string.h>
#include <sys/ptrace.h>
#include <sys/syscall.h>
#include <sys/types.h>
#include <sys/uio.h>
#include <sys/user.h>
#include <sys/wait.h>
#include <unistd.h>
#include <linux/ptrace.h>
#include <linux/audit.h>
#include <linux/filter.h>
#include <linux/seccomp.h>
#include <stddef.h>
#include <sys/prctl.h>

#ifndef __x86_64__
#error "crashtrace supports x86_64 only"
#endif

#define MAXT 4096

static const char *watch;
static size_t watchlen;
static FILE *logf;
static int mode; /* 0 log, 1 kill, 2 tear */
static long target_k = -1, tear_n = -1;
static long counter = 0;
static pid_t rootpid;

struct thr {
	pid_t tid;
	int started;
	int held;      /* stopped at a watched entry, waiting for the in-flight call to return */
	int inflight;  /* its watched call has been let go and has not returned yet */
	int tearing;   /* kill at exit of this call */
};
static struct thr T[MAXT];
static int nT;
static pid_t inflight_tid = 0;
/* With a seccomp filter in the tracee only the watched system calls stop (PTRACE_EVENT_SECCOMP); every
 * other call runs at full speed.  -S switches the filter off (every call then stops at entry and exit). */
static int use_seccomp = 1;
static int resume_req = PTRACE_CONT;

static const int watched_nrs[] = {
	SYS_open, SYS_creat, SYS_openat,
#ifdef SYS_openat2
	SYS_openat2,
#endif
	SYS_rename, SYS_renameat,
#ifdef SYS_renameat2
	SYS_renameat2,
#endif
	SYS_link, SYS_linkat, SYS_symlink, SYS_symlinkat, SYS_unlink, SYS_unlinkat, SYS_mkdir, SYS_mkdirat,
	SYS_rmdir, SYS_truncate, SYS_chmod, SYS_fchmodat, SYS_write, SYS_pwrite64, SYS_writev, SYS_pwritev,
#ifdef SYS_pwritev2
	SYS_pwritev2,
#endif
	SYS_ftruncate, SYS_fallocate, SYS_fchmod, SYS_fsync, SYS_fdatasync, SYS_sendfile,
#ifdef SYS_copy_file_range
	SYS_copy_file_range,
#endif
	SYS_close,
};
#define NWATCHED ((int)(sizeof watched_nrs / sizeof watched_nrs[0]))

/* called in the child between fork and exec */
static int install_filter(void)
{
	static struct sock_filter f[NWATCHED + 8];
	int n = 0;
	f[n++] = (struct sock_filter)BPF_STMT(BPF_LD | BPF_W | BPF_ABS, offsetof(struct seccomp_data, arch));
	f[n++] = (struct sock_filter)BPF_JUMP(BPF_JMP | BPF_JEQ | BPF_K, AUDIT_ARCH_X86_64, 1, 0);
	f[n++] = (struct sock_filter)BPF_STMT(BPF_RET | BPF_K, SECCOMP_RET_ALLOW);
	f[n++] = (struct sock_filter)BPF_STMT(BPF_LD | BPF_W | BPF_ABS, offsetof(struct seccomp_data, nr));
	for (int i = 0; i < NWATCHED; i++)
		f[n++] = (struct sock_filter)BPF_JUMP(BPF_JMP | BPF_JEQ | BPF_K, (unsigned)watched_nrs[i], (unsigned char)(NWATCHED - i), 0);
	f[n++] = (struct sock_filter)BPF_STMT(BPF_RET | BPF_K, SECCOMP_RET_ALLOW);
	f[n++] = (struct sock_filter)BPF_STMT(BPF_RET | BPF_K, SECCOMP_RET_TRACE);
	struct sock_fprog prog = {(unsigned short)n, f};
	if (prctl(PR_SET_NO_NEW_PRIVS, 1, 0, 0, 0) < 0)
		return -1;
	return prctl(PR_SET_SECCOMP, SECCOMP_MODE_FILTER, &prog);
}

static void die(const char *m)
{
	fprintf(stderr, "crashtrace: %s: %s\n", m, strerror(errno));
	if (rootpid > 0)
		kill(rootpid, SIGKILL);
	exit(2);
}

static struct thr *get(pid_t tid)
{
	for (int i = 0; i < nT; i++)
		if (T[i].tid == tid)
			return &T[i];
	if (nT == MAXT) {
		errno = ENOMEM;
		die("too many threads");
	}
	memset(&T[nT], 0, sizeof T[nT]);
	T[nT].tid = tid;
	return &T[nT++];
}

static void drop(pid_t tid)
{
	for (int i = 0; i < nT; i++)
		if (T[i].tid == tid) {
			if (inflight_tid == tid)
				inflight_tid = 0;
			T[i] = T[--nT];
			return;
		}
}

/* read a NUL-terminated string from the tracee */
static int rdstr(pid_t tid, uint64_t addr, char *buf, size_t cap)
{
	size_t got = 0;
	if (!addr) {
		buf[0] = 0;
		return -1;
	}
	while (got + 1 < cap) {
		size_t chunk = 4096 - ((addr + got) & 4095);
		if (chunk > cap - 1 - got)
			chunk = cap - 1 - got;
		struct iovec l = {buf + got, chunk}, r = {(void *)(uintptr_t)(addr + got), chunk};
		ssize_t n = process_vm_readv(tid, &l, 1, &r, 1, 0);
		if (n <= 0)
			break;
		for (ssize_t i = 0; i < n; i++)
			if (buf[got + i] == 0)
				return 0;
		got += n;
	}
	buf[got] = 0;
	return got ? 0 : -1;
}

/* lexical clean of an absolute path (no symlink resolution) */
static void clean(char *p)
{
	char out[PATH_MAX * 2];
	size_t o = 0;
	char *s = p;
	while (*s) {
		while (*s == '/')
			s++;
		if (!*s)
			break;
		char *e = s;
		while (*e && *e != '/')
			e++;
		size_t n = e - s;
		if (n == 1 && s[0] == '.') {
		} else if (n == 2 && s[0] == '.' && s[1] == '.') {
			while (o > 0 && out[o - 1] != '/')
				o--;
			if (o > 0)
				o--;
		} else {
			out[o++] = '/';
			memcpy(out + o, s, n);
			o += n;
		}
		s = e;
	}
	if (o == 0)
		out[o++] = '/';
	out[o] = 0;
	strcpy(p, out);
}

static int fdpath(pid_t tid, long fd, char *buf, size_t cap)
{
	char lk[64];
	if ((int)fd == AT_FDCWD)
		snprintf(lk, sizeof lk, "/proc/%d/cwd", tid);
	else
		snprintf(lk, sizeof lk, "/proc/%d/fd/%ld", tid, fd);
	ssize_t n = readlink(lk, buf, cap - 1);
	if (n < 0) {
		buf[0] = 0;
		return -1;
	}
	buf[n] = 0;
	return 0;
}

/* absolute, cleaned path of (dirfd, user string) */
static int atpath(pid_t tid, long dirfd, uint64_t uaddr, char *buf /* PATH_MAX*2 */)
{
	char s[PATH_MAX];
	if (rdstr(tid, uaddr, s, sizeof s) < 0) {
		buf[0] = 0;
		return -1;
	}
	if (s[0] == '/') {
		snprintf(buf, PATH_MAX * 2, "%s", s);
	} else {
		char d[PATH_MAX];
		if (fdpath(tid, dirfd, d, sizeof d) < 0) {
			buf[0] = 0;
			return -1;
		}
		snprintf(buf, PATH_MAX * 2, "%s/%s", d, s);
	}
	clean(buf);
	return 0;
}

static int inside(const char *p)
{
	return strncmp(p, watch, watchlen) == 0 && (p[watchlen] == '/' || p[watchlen] == 0);
}

struct ent {
	const char *name;
	char p1[PATH_MAX * 2], p2[PATH_MAX * 2];
	int has2, hasflags, hasn, iswrite;
	unsigned long flags;
	unsigned long n;
};

/* classify a syscall entry; returns 1 if it is a watched mutating call */
static int classify(pid_t tid, uint64_t nr, const __u64 *a, struct ent *e)
{
	memset(e, 0, sizeof *e);
#define PATH1(nm, dfd, ua) do { e->name = nm; atpath(tid, dfd, ua, e->p1); return inside(e->p1); } while (0)
#define PATH2(nm, d1, u1, d2, u2) do { e->name = nm; atpath(tid, d1, u1, e->p1); atpath(tid, d2, u2, e->p2); e->has2 = 1; return inside(e->p1) || inside(e->p2); } while (0)
#define FD1(nm, fd) do { e->name = nm; fdpath(tid, (long)(int)(fd), e->p1, sizeof e->p1); return inside(e->p1); } while (0)
	const int wr = O_CREAT | O_TRUNC | O_WRONLY | O_RDWR;
	switch (nr) {
	case SYS_open:
		if (!(a[1] & wr))
			return 0;
		e->hasflags = 1, e->flags = a[1];
		PATH1("open", AT_FDCWD, a[0]);
	case SYS_creat:
		PATH1("creat", AT_FDCWD, a[0]);
	case SYS_openat:
		if (!(a[2] & wr))
			return 0;
		e->hasflags = 1, e->flags = a[2];
		PATH1("openat", (long)(int)a[0], a[1]);
#ifdef SYS_openat2
	case SYS_openat2: {
		uint64_t how[3] = {0, 0, 0};
		struct iovec l = {how, sizeof how}, r = {(void *)(uintptr_t)a[2], sizeof how};
		process_vm_readv(tid, &l, 1, &r, 1, 0);
		if (!(how[0] & wr))
			return 0;
		e->hasflags = 1, e->flags = how[0];
		PATH1("openat2", (long)(int)a[0], a[1]);
	}
#endif
	case SYS_rename:
		PATH2("rename", AT_FDCWD, a[0], AT_FDCWD, a[1]);
	case SYS_renameat:
		PATH2("renameat", (long)(int)a[0], a[1], (long)(int)a[2], a[3]);
#ifdef SYS_renameat2
	case SYS_renameat2:
		PATH2("renameat2", (long)(int)a[0], a[1], (long)(int)a[2], a[3]);
#endif
	case SYS_link:
		PATH2("link", AT_FDCWD, a[0], AT_FDCWD, a[1]);
	case SYS_linkat:
		PATH2("linkat", (long)(int)a[0], a[1], (long)(int)a[2], a[3]);
	case SYS_symlink:
		PATH1("symlink", AT_FDCWD, a[1]);
	case SYS_symlinkat:
		PATH1("symlinkat", (long)(int)a[1], a[2]);
	case SYS_unlink:
		PATH1("unlink", AT_FDCWD, a[0]);
	case SYS_unlinkat:
		e->hasflags = 1, e->flags = a[2];
		PATH1("unlinkat", (long)(int)a[0], a[1]);
	case SYS_mkdir:
		PATH1("mkdir", AT_FDCWD, a[0]);
	case SYS_mkdirat:
		PATH1("mkdirat", (long)(int)a[0], a[1]);
	case SYS_rmdir:
		PATH1("rmdir", AT_FDCWD, a[0]);
	case SYS_truncate:
		e->hasn = 1, e->n = a[1];
		PATH1("truncate", AT_FDCWD, a[0]);
	case SYS_chmod:
		PATH1("chmod", AT_FDCWD, a[0]);
	case SYS_fchmodat:
		PATH1("fchmodat", (long)(int)a[0], a[1]);
	case SYS_write:
		e->hasn = 1, e->n = a[2], e->iswrite = 1;
		FD1("write", a[0]);
	case SYS_pwrite64:
		e->hasn = 1, e->n = a[2], e->iswrite = 1;
		FD1("pwrite64", a[0]);
	case SYS_writev:
		FD1("writev", a[0]);
	case SYS_pwritev:
		FD1("pwritev", a[0]);
#ifdef SYS_pwritev2
	case SYS_pwritev2:
		FD1("pwritev2", a[0]);
#endif
	case SYS_ftruncate:
		e->hasn = 1, e->n = a[1];
		FD1("ftruncate", a[0]);
	case SYS_fallocate:
		FD1("fallocate", a[0]);
	case SYS_fchmod:
		FD1("fchmod", a[0]);
	case SYS_fsync:
		FD1("fsync", a[0]);
	case SYS_fdatasync:
		FD1("fdatasync", a[0]);
	case SYS_sendfile:
		FD1("sendfile", a[0]);
#ifdef SYS_copy_file_range
	case SYS_copy_file_range:
		FD1("copy_file_range", a[2]);
#endif
	case SYS_close:
		FD1("close", a[0]);
	}
	return 0;
}

static void logent(const struct ent *e)
{
	fprintf(logf, "%ld\t%s\t%s", counter, e->name, e->p1);
	if (e->has2)
		fprintf(logf, "\t-> %s", e->p2);
	if (e->hasflags)
		fprintf(logf, "\tflags=0x%lx", e->flags);
	if (e->hasn)
		fprintf(logf, "\tn=%lu", e->n);
	fputc('\n', logf);
	fflush(logf);
}

static void finish_killed(const char *how)
{
	kill(rootpid, SIGKILL);
	/* reap everything so that no tracee survives us */
	for (;;) {
		int st;
		pid_t w = waitpid(-1, &st, __WALL);
		if (w < 0 && errno == ECHILD)
			break;
		if (w < 0 && errno != EINTR)
			break;
	}
	fprintf(logf, "# end killed=%s k=%ld\n", how, target_k);
	fclose(logf);
	exit(0);
}

/* handle a thread stopped at a watched entry whose turn has come. Returns 0 if the thread was resumed. */
static void admit(struct thr *t, const struct ent *e)
{
	counter++;
	logent(e);
	if (counter == target_k && mode == 1) {
		struct user_regs_struct r;
		if (ptrace(PTRACE_GETREGS, t->tid, 0, &r) == 0) {
			r.orig_rax = (unsigned long long)-1; /* cancel the call */
			ptrace(PTRACE_SETREGS, t->tid, 0, &r);
		}
		finish_killed("entry");
	}
	if (counter == target_k && mode == 2) {
		if (!e->iswrite || (unsigned long)tear_n > e->n) {
			fprintf(stderr, "crashtrace: entry %ld is %s n=%lu: cannot tear to %ld\n", counter, e->name, e->n, tear_n);
			kill(rootpid, SIGKILL);
			exit(3);
		}
		struct user_regs_struct r;
		if (ptrace(PTRACE_GETREGS, t->tid, 0, &r) < 0)
			die("GETREGS");
		r.rdx = (unsigned long long)tear_n;
		if (ptrace(PTRACE_SETREGS, t->tid, 0, &r) < 0)
			die("SETREGS");
		t->tearing = 1;
	}
	t->held = 0;
	t->inflight = 1;
	inflight_tid = t->tid;
	if (ptrace(PTRACE_SYSCALL, t->tid, 0, 0) < 0 && errno != ESRCH)
		die("PTRACE_SYSCALL");
}

static void release_held(void)
{
	while (inflight_tid == 0) {
		struct thr *t = NULL;
		for (int i = 0; i < nT; i++)
			if (T[i].held && (!t || T[i].held < t->held))
				t = &T[i];
		if (!t)
			return;
		struct ptrace_syscall_info si;
		struct ent e;
		if (ptrace(PTRACE_GET_SYSCALL_INFO, t->tid, sizeof si, &si) <= 0) {
			t->held = 0;
			continue;
		}
		/* re-classify now: the fd table may have changed while held */
		int w = si.op == PTRACE_SYSCALL_INFO_SECCOMP ? classify(t->tid, si.seccomp.nr, si.seccomp.args, &e)
							     : classify(t->tid, si.entry.nr, si.entry.args, &e);
		if (!w) {
			t->held = 0;
			ptrace(resume_req, t->tid, 0, 0);
			continue;
		}
		admit(t, &e);
	}
}

int main(int argc, char **argv)
{
	const char *logpath = NULL;
	int i = 1;
	while (i < argc && argv[i][0] == '-' && argv[i][1] != '-') {
		if (!strcmp(argv[i], "-w") && i + 1 < argc)
			watch = argv[i + 1], i += 2;
		else if (!strcmp(argv[i], "-o") && i + 1 < argc)
			logpath = argv[i + 1], i += 2;
		else if (!strcmp(argv[i], "-S"))
			use_seccomp = 0, i++;
		else
			break;
	}
	if (!watch || !logpath || i >= argc)
		goto usage;
	if (!strcmp(argv[i], "log"))
		mode = 0, i++;
	else if (!strcmp(argv[i], "kill") && i + 1 < argc)
		mode = 1, target_k = atol(argv[i + 1]), i += 2;
	else if (!strcmp(argv[i], "tear") && i + 2 < argc)
		mode = 2, target_k = atol(argv[i + 1]), tear_n = atol(argv[i + 2]), i += 3;
	else
		goto usage;
	if (i >= argc || strcmp(argv[i], "--") || i + 1 >= argc)
		goto usage;
	i++;
	if (mode && target_k < 1)
		goto usage;
	static char wbuf[PATH_MAX * 2];
	snprintf(wbuf, sizeof wbuf, "%s", watch);
	clean(wbuf);
	watch = wbuf;
	watchlen = strlen(watch);
	logf = fopen(logpath, "w");
	if (!logf)
		die("open log");

	rootpid = fork();
	if (rootpid < 0)
		die("fork");
	if (rootpid == 0) {
		if (ptrace(PTRACE_TRACEME, 0, 0, 0) < 0)
			_exit(126);
		raise(SIGSTOP);
		if (use_seccomp && install_filter() < 0)
			_exit(125);
		execvp(argv[i], argv + i);
		_exit(127);
	}
	if (!use_seccomp)
		resume_req = PTRACE_SYSCALL;
	int st;
	if (waitpid(rootpid, &st, __WALL) < 0 || !WIFSTOPPED(st))
		die("initial wait");
	long opts = PTRACE_O_TRACESYSGOOD | PTRACE_O_TRACECLONE | PTRACE_O_TRACEFORK | PTRACE_O_TRACEVFORK |
		    PTRACE_O_TRACEEXEC | PTRACE_O_EXITKILL | PTRACE_O_TRACESECCOMP;
	if (ptrace(PTRACE_SETOPTIONS, rootpid, 0, opts) < 0)
		die("SETOPTIONS");
	get(rootpid)->started = 1;
	if (ptrace(resume_req, rootpid, 0, 0) < 0)
		die("first resume");

	int rootstatus = -1;
	long heldseq = 0;
	for (;;) {
		pid_t tid = waitpid(-1, &st, __WALL);
		if (tid < 0) {
			if (errno == EINTR)
				continue;
			if (errno == ECHILD)
				break;
			die("waitpid");
		}
		if (WIFEXITED(st) || WIFSIGNALED(st)) {
			if (tid == rootpid)
				rootstatus = WIFEXITED(st) ? WEXITSTATUS(st) : 128 + WTERMSIG(st);
			drop(tid);
			release_held();
			continue;
		}
		if (!WIFSTOPPED(st))
			continue;
		struct thr *t = get(tid);
		int sig = WSTOPSIG(st);
		int ev = (unsigned)st >> 16;
		int deliver = 0;
		if (sig == (SIGTRAP | 0x80)) {
			struct ptrace_syscall_info si;
			memset(&si, 0, sizeof si);
			if (ptrace(PTRACE_GET_SYSCALL_INFO, tid, sizeof si, &si) <= 0)
				goto cont; /* thread vanished */
			if (si.op == PTRACE_SYSCALL_INFO_ENTRY && !use_seccomp) {
				struct ent e;
				if (classify(tid, si.entry.nr, si.entry.args, &e)) {
					if (inflight_tid && inflight_tid != tid) {
						t->held = (int)++heldseq;
						continue; /* stays stopped */
					}
					admit(t, &e);
					continue;
				}
			} else if (si.op == PTRACE_SYSCALL_INFO_EXIT) {
				if (t->inflight) {
					t->inflight = 0;
					if (inflight_tid == tid)
						inflight_tid = 0;
					if (t->tearing) {
						fprintf(logf, "# torn write returned %lld\n", (long long)si.exit.rval);
						finish_killed("exit-of-torn-write");
					}
					if (ptrace(resume_req, tid, 0, 0) < 0 && errno != ESRCH)
						die("resume after exit");
					release_held();
					continue;
				}
			}
		} else if (sig == SIGTRAP && ev == PTRACE_EVENT_SECCOMP) {
			struct ptrace_syscall_info si;
			struct ent e;
			memset(&si, 0, sizeof si);
			if (ptrace(PTRACE_GET_SYSCALL_INFO, tid, sizeof si, &si) <= 0)
				goto cont;
			if (si.op == PTRACE_SYSCALL_INFO_SECCOMP && classify(tid, si.seccomp.nr, si.seccomp.args, &e)) {
				if (inflight_tid && inflight_tid != tid) {
					t->held = (int)++heldseq;
					continue; /* stays stopped */
				}
				admit(t, &e);
				continue;
			}
		} else if (sig == SIGTRAP && ev) {
			/* clone/fork/vfork/exec event stop: nothing to do, the new task is auto-attached */
			if (ev == PTRACE_EVENT_EXEC && t->inflight) { /* exec does not return to an exit stop we count */
			}
		} else if (sig == SIGSTOP && !t->started) {
			t->started = 1; /* initial stop of an auto-attached task */
		} else {
			deliver = sig; /* genuine signal (SIGURG preemption, SIGCHLD, …): forward */
		}
		t->started = 1;
	cont:
		if (ptrace(resume_req, tid, 0, deliver) < 0 && errno != ESRCH)
			die("resume");
	}
	if (mode) {
		fprintf(logf, "# end exit=%d entries=%ld (target %ld not reached)\n", rootstatus, counter, target_k);
		fclose(logf);
		return 4;
	}
	fprintf(logf, "# end exit=%d entries=%ld\n", rootstatus, counter);
	fclose(logf);
	return rootstatus < 0 ? 2 : rootstatus;
usage:
	fprintf(stderr, "usage: crashtrace [-S] -w <watchdir> -o <logfile> log|kill <k>|tear <k> <bytes> -- cmd args...\n");
	return 2;
}
