#!/usr/bin/env python3
"""Rewrites the generated parts of DESIGN.md (between the BEGIN/END GENERATED markers): the list of repaired and recorded
defects (from known_findings.jsonl and the fix: commits of /repo) and the table of seeded changes (from seeded/*/meta.json)."""
import json,os, glob, subprocess, re, os
root='/verif'
kf=[json.loads(l) for l in open(f'{root}/known_findings.jsonl') if l.strip() and not l.startswith('#')]
log=subprocess.check_output(['git','-C','/repo','log','--format=%h\t%s']).decode().strip().split('\n')
fixes=[l.split('\t',1) for l in log if '\tfix:' in l]
out=[]
out.append('### 9.4 Genuine defects: repaired (`fix:` commits in /repo) and recorded (known_findings.jsonl)\n')
out.append(f'{len(fixes)} defects were repaired, each by one minimal unguarded commit whose message starts `fix:`; the pinned test suite passes with all of them (tools/baseline_check.py: every test of BASELINE.json\'s stable_pass set). Oldest first:\n')
fixed_by_commit={}
for k in kf:
    if k.get('status')=='fixed': fixed_by_commit.setdefault(k.get('commit','')[:9],[]).append(k)
for h,s in reversed(fixes):
    props=sorted({k['property'] for k in fixed_by_commit.get(h[:9],[])})
    out.append(f'* `{h}` {s[5:].strip()}' + (f' — found by {", ".join(props)}' if props else ''))
out.append('')
open_=[k for k in kf if k.get('status')!='fixed']
byp={}
for k in open_: byp.setdefault(k['property'],[]).append(k)
out.append(f'{len(open_)} failure classes of genuine defects are recorded rather than repaired (the repair is not small and safe, or the behaviour is pinned by a golden test file, or it changes what compiles). Each check prints `KNOWN-FINDING:` for them and exits 0; any other class is a VIOLATION. Per property (class — what fails):\n')
for p in sorted(byp):
    out.append(f'* **{p}** ({len(byp[p])})')
    seen=set()
    for k in byp[p]:
        w=k['what']
        if w in seen: continue
        seen.add(w)
        classes=[x['class'] for x in byp[p] if x['what']==w]
        cl=classes[0] if len(classes)==1 else f'{classes[0]} (+{len(classes)-1} variants)'
        out.append(f'  * `{cl}` — {w}')
out.append('')
out.append('### 9.5 Seeded changes and which checks catch them\n')
out.append('Each change was written by a fresh sub-agent that saw only the property record and a private worktree, and was then confirmed by `tools/seedrun.sh` in a scratch worktree of /repo HEAD (demonstration passes on the clean tree and fails with the patch; `go build ./...`; stable_pass tests of the touched packages and their dependants still pass) before the check was run against it through `go build -overlay` (equivalent to applying it to /repo, but safe while other runs use /repo). `seeded/<id>/` holds patch.diff, the demonstration, the sub-agent\'s notes and meta.json.\n')
def remark(m):
    parts=[m.get('note','')]
    if m.get('first_run'): parts.append('first run: '+m['first_run'])
    if m.get('strengthening'): parts.append('then: '+m['strengthening'])
    return '; '.join(x for x in parts if x)
_ms=[json.load(open(f'/verif/seeded/{n}/meta.json')) for n in sorted(os.listdir('/verif/seeded')) if os.path.exists(f'/verif/seeded/{n}/meta.json')]
_missed=sum(1 for m in _ms if m.get('first_run_outcome')=='missed'); _nd=sum(1 for m in _ms if not m.get('detected_by'))
out.append(f"{len(_ms)} changes in all ({len(_ms)-_missed} caught by the check as it stood when the change arrived, {_missed} missed on the first run and caught after the check was extended, {_nd} still not caught). Names with a suffix b are second changes for the same property, written by agents that were told which site the first change had used.\n")
out.append('| seeded | breaks | needs, in order to manifest | caught by | remark |')
out.append('|---|---|---|---|---|')
for f in sorted(glob.glob(f'{root}/seeded/*/meta.json')):
    m=json.load(open(f)); name=os.path.basename(os.path.dirname(f))
    out.append(f"| {name} | {m.get('breaks_property','')} | {m.get('needs_to_manifest','').replace('|','/')} | {', '.join(m.get('detected_by',[])) or '**not caught**'} | {remark(m).replace('|','/')} |")
out.append('')
s=open(f'{root}/DESIGN.md').read()
b,e='<!-- BEGIN GENERATED -->','<!-- END GENERATED -->'
block=b+'\n'+'\n'.join(out)+'\n'+e
if b in s:
    s=s[:s.index(b)]+block+s[s.index(e)+len(e):]
else:
    s=s.rstrip('\n')+'\n\n'+block+'\n'
open(f'{root}/DESIGN.md','w').write(s)
print('fixes',len(fixes),'open classes',len(open_),'seeded',len(glob.glob(f'{root}/seeded/*/meta.json')))
