#!/bin/bash
# regen_evidence.sh: runs the quick command of every check in MANIFEST.json, one after the other, against /repo's current
# working tree, so that every evidence/<id>.json comes from one consistent state. Prints one line per check.
cd /verif
rc=0
for id in $(python3 -c "import json;print(' '.join(c['property_id'] if 'property_id' in c else c['id'] for c in json.load(open('MANIFEST.json'))['checks']))" 2>/dev/null || awk '!/^#/ && NF>=2 {print $1}' groups.txt); do
  out=$(./verif $id 2>&1); r=$?
  echo "$id exit=$r $(echo "$out" | grep -a -c '^VIOLATION') violations, $(echo "$out" | grep -a -c '^KNOWN-FINDING') known findings; $(echo "$out" | grep -a "^$id tier" | head -1 | cut -c1-160)"
  [ $r = 0 ] || rc=1
done
exit $rc
