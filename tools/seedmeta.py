#!/usr/bin/env python3
import json,sys
name=sys.argv[1]; p=f'/verif/seeded/{name}/meta.json'
m=json.load(open(p))
for kv in sys.argv[2:]:
    k,v=kv.split('=',1)
    m[k]=v.split(',') if k=='detected_by' else v
json.dump(m,open(p,'w'),indent=1)
print(json.dumps(m)[:300])
