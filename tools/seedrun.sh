#!/bin/bash
# seedrun.sh <property-id> <out-dir-of-sub-agent> <demo-pkg-dir> [check ids to run, default = property id]
# Confirms a seeded change independently (demo passes clean / fails patched; stable_pass tests of the touched packages and
# their dependants still pass) in a scratch worktree of /repo's HEAD, then runs the check(s) against it through a
# build overlay (so /repo itself is never modified while other runs use it) and files it under /verif/seeded/<id>/.
set -u
id=$1; src=$2; pkg=$3; shift 3
checks=${*:-$id}
. /verif/env.sh
wt=/tmp/mut/ap-$id-$$
name=${SEED_NAME:-$id}
git -C /repo worktree add -q --detach $wt HEAD || exit 2
trap 'git -C /repo worktree remove --force '$wt' >/dev/null 2>&1' EXIT
res=/verif/seeded/$name; mkdir -p $res
cp $src/patch.diff $res/patch.diff; cp $src/demo_test.go $res/demo_test.go; cp $src/notes.md $res/notes.md 2>/dev/null
demo=$wt/$pkg/zz_seeded_demo_test.go
cp $src/demo_test.go $demo
echo "== demo on clean tree"; (cd $wt && $GO test -vet=off -count=1 -run 'Seeded|ZZ' ./$pkg/ 2>&1 | tail -3); clean=${PIPESTATUS[0]}
(cd $wt && git apply --3way $src/patch.diff) || { echo "PATCH DOES NOT APPLY"; exit 3; }
echo "== demo on patched tree"; (cd $wt && $GO test -vet=off -count=1 -run 'Seeded|ZZ' ./$pkg/ 2>&1 | tail -3)
rm -f $demo
echo "== build"; (cd $wt && $GO build ./... ) || { echo "DOES NOT BUILD"; exit 3; }
files=$(cd $wt && git diff --name-only HEAD)
echo "changed: $files"
if [ "${SEED_TESTS:-pkgs}" = full ]; then tp="./..."; else tp=${SEED_TEST_PKGS:-"./d2ast/ ./d2parser/ ./d2format/ ./d2ir/ ./d2compiler/ ./d2graph/ ./d2oracle/ ./d2lsp/ ./d2exporter/"}; fi
echo "== stable_pass tests ($tp) on patched tree"; python3 /verif/tools/baseline_check.py --dir $wt $tp | tail -5; tests=${PIPESTATUS[0]}
ov=/verif/.scratch/mut/seed-$name; mkdir -p $ov
{ echo '{"Replace": {'; first=1; for f in $files; do cp $wt/$f $ov/$(echo $f | tr / _); [ $first = 1 ] || echo ','; first=0; printf '  "/repo/%s": "%s"' "$f" "$ov/$(echo $f | tr / _)"; done; echo; echo '}}'; } > $ov/overlay.json
detected=""
for c in $checks; do
  echo "== check $c against the change"
  out=$(VERIF_OVERLAY=$ov/overlay.json VERIF_BUDGET_S=${SEED_BUDGET:-900} /verif/verif $c 2>&1); rc=$?
  echo "$out" | grep -a -A3 "^VIOLATION" | cut -c1-300 | head -12; echo "$out" | grep -a "^$c tier" 
  echo "exit=$rc"
  [ $rc = 1 ] && detected="$detected $c"
done
python3 - "$name" "$id" "$pkg" "$files" "$detected" "$tests" "$checks" <<'PY'
import json,sys
name,id,pkg,files,detected,tests,checks=sys.argv[1:8]
p=f'/verif/seeded/{name}/meta.json'
try: m=json.load(open(p))
except Exception: m={}
m.update({"breaks_property":id,"demo_package":pkg,"files_changed":files.split(),"checks_run":checks.split(),"detected_by":detected.split(),
 "stable_pass_tests_still_pass": tests=='0', "confirmed_with":"tools/seedrun.sh: demo passes on a clean worktree of /repo HEAD and fails with the patch; go build ./...; stable_pass tests of the listed packages via tools/baseline_check.py; check run through go build -overlay"})
json.dump(m,open(p,'w'),indent=1)
PY
echo "DETECTED BY:$detected"
